// Exploratory (design phase): random set_input_delay sequences; owner vs remote vs spectator must agree on every player's inputs.
mod probe_net; use probe_net::*; use ggrs::*; use std::rc::Rc; use std::cell::RefCell;
struct Rng(u64); impl Rng { fn next(&mut self) -> u64 { self.0 ^= self.0 << 13; self.0 ^= self.0 >> 7; self.0 ^= self.0 << 17; self.0 } fn below(&mut self, n: u64) -> u64 { self.next() % n } }

fn run(seed: u64, mp: usize, two_locals: bool, spect: bool, sparse: bool) -> Result<(), String> {
    let net: NetRc = Rc::new(RefCell::new(Net::default()));
    let np = if two_locals { 3 } else { 2 };
    let mut ba = SessionBuilder::<Cfg>::new().with_num_players(np).unwrap().with_max_prediction_window(mp).with_sparse_saving_mode(sparse);
    let mut bb = SessionBuilder::<Cfg>::new().with_num_players(np).unwrap().with_max_prediction_window(mp).with_sparse_saving_mode(sparse);
    for h in 0..np { let a_owns = h + 1 < np; ba = ba.add_player(if a_owns { PlayerType::Local } else { PlayerType::Remote(1) }, h).unwrap(); bb = bb.add_player(if a_owns { PlayerType::Remote(0) } else { PlayerType::Local }, h).unwrap(); }
    if spect { ba = ba.add_player(PlayerType::Spectator(2), np).unwrap(); }
    let mut a = ba.start_p2p_session(Sock{me:0, net: net.clone()}).unwrap();
    let mut b = bb.start_p2p_session(Sock{me:1, net: net.clone()}).unwrap();
    let mut s = if spect { Some(SessionBuilder::<Cfg>::new().with_num_players(np).unwrap().start_spectator_session(0, Sock{me:2, net: net.clone()})) } else { None };
    for _ in 0..300 { a.poll_remote_clients(); b.poll_remote_clients(); if let Some(s) = s.as_mut() { s.poll_remote_clients(); } }
    if a.current_state() != SessionState::Running { return Err("nosync".into()); }
    let (mut ga, mut gb, mut gs) = (Game::default(), Game::default(), Game::default());
    let mut rng = Rng(seed | 1);
    let mut ops = vec![];
    for tick in 0..150 {
        if rng.below(4) == 0 { let h = rng.below(np as u64 - 1) as usize; let d = rng.below(7) as usize; ops.push((tick, h, d)); a.set_input_delay(h, d).map_err(|e| e.to_string())?; }
        let order = rng.below(3);
        if order != 0 { for h in b.local_player_handles() { b.add_local_input(h, (tick % 5) as u8).unwrap(); } if let Ok(r) = b.advance_frame() { gb.handle(r); } }
        let fa = a.current_frame();
        for h in a.local_player_handles() { a.add_local_input(h, ((fa * 3 + h as i32) % 251) as u8 + 1).unwrap(); }
        match a.advance_frame() { Ok(r) => ga.handle(r), Err(e) => return Err(format!("a err {e} ops {ops:?}")) }
        if order == 0 { for h in b.local_player_handles() { b.add_local_input(h, (tick % 5) as u8).unwrap(); } if let Ok(r) = b.advance_frame() { gb.handle(r); } }
        if let Some(s) = s.as_mut() { if let Ok(r) = s.advance_frame() { gs.handle(r); } }
    }
    // settle: a few more frames without delay changes so everything is confirmed and resimulated
    for _ in 0..20 { for h in b.local_player_handles() { b.add_local_input(h, 0).unwrap(); } if let Ok(r) = b.advance_frame() { gb.handle(r); }
        for h in a.local_player_handles() { a.add_local_input(h, 0).unwrap(); } if let Ok(r) = a.advance_frame() { ga.handle(r); }
        if let Some(s) = s.as_mut() { if let Ok(r) = s.advance_frame() { gs.handle(r); } } }
    let n = ga.log.len().min(gb.log.len()).saturating_sub(25);
    for i in 0..n { for h in 0..np { if ga.log[i].1[h].0 != gb.log[i].1[h].0 { return Err(format!("frame {} player {h}: owner {:?} remote {:?} ops {ops:?}", ga.log[i].0, ga.log[i].1[h], gb.log[i].1[h])); } } }
    if spect { let m = n.min(gs.log.len()); for i in 0..m { for h in 0..np { if ga.log[i].1[h].0 != gs.log[i].1[h].0 { return Err(format!("frame {} player {h}: owner {:?} spectator {:?}", ga.log[i].0, ga.log[i].1[h], gs.log[i].1[h])); } } } }
    Ok(())
}
#[test]
fn explore_delay() {
    let (mut bad, mut n) = (0, 0);
    for seed in 1..=60u64 { for &mp in &[0usize, 2, 8] { for &two in &[false, true] { for &spect in &[false, true] { for &sparse in &[false, true] {
        n += 1;
        let r = std::panic::catch_unwind(|| run(seed, mp, two, spect, sparse));
        let msg = match r { Ok(Ok(())) => continue, Ok(Err(e)) => e, Err(p) => format!("PANIC {:?}", p.downcast_ref::<String>().cloned().or(p.downcast_ref::<&str>().map(|s| s.to_string()))) };
        bad += 1; if bad <= 12 { println!("seed={seed} mp={mp} two_locals={two} spect={spect} sparse={sparse}: {msg}"); }
    }}}}}
    println!("explore_delay: {bad} bad of {n}");
}
