mod probe_net; use probe_net::*; use ggrs::*; use std::rc::Rc; use std::cell::RefCell;
#[test]
fn probe_d10_two_local_players_different_delay() {
    let net: NetRc = Rc::new(RefCell::new(Net::default()));
    let mut a = SessionBuilder::<Cfg>::new().with_num_players(3).unwrap()
        .add_player(PlayerType::Local, 0).unwrap().add_player(PlayerType::Local, 1).unwrap().add_player(PlayerType::Remote(1), 2).unwrap()
        .start_p2p_session(Sock{me:0, net: net.clone()}).unwrap();
    let mut b = SessionBuilder::<Cfg>::new().with_num_players(3).unwrap()
        .add_player(PlayerType::Remote(0), 0).unwrap().add_player(PlayerType::Remote(0), 1).unwrap().add_player(PlayerType::Local, 2).unwrap()
        .start_p2p_session(Sock{me:1, net: net.clone()}).unwrap();
    sync(&mut [&mut a, &mut b]);
    a.set_input_delay(1, 2).unwrap();
    let (mut ga, mut gb) = (Game::default(), Game::default());
    for f in 0..40 {
        a.add_local_input(0, (50 + f) as u8).unwrap(); a.add_local_input(1, (150 + f) as u8).unwrap();
        match a.advance_frame() { Ok(r) => ga.handle(r), Err(e) => println!("f{f} a err {e}") }
        b.add_local_input(2, 3).unwrap(); match b.advance_frame() { Ok(r) => gb.handle(r), Err(e) => println!("f{f} b err {e}") }
    }
    let n = ga.log.len().min(gb.log.len()).saturating_sub(10);
    let mut diffs = vec![];
    for i in 0..n { for p in 0..2 { if ga.log[i].1[p].0 != gb.log[i].1[p].0 { diffs.push((ga.log[i].0, p, ga.log[i].1[p], gb.log[i].1[p])); } } }
    println!("d10 a={} b={} diffs (frame, player, owner, remote): {:?}", a.current_frame(), b.current_frame(), diffs);
    assert!(diffs.is_empty());
}
