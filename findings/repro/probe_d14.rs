mod probe_net; use probe_net::*; use ggrs::*; use std::rc::Rc; use std::cell::RefCell; use std::time::Duration;
#[test]
fn probe_d14_spectator_events_after_disconnected() {
    let net: NetRc = Rc::new(RefCell::new(Net::default()));
    let mut a = SessionBuilder::<Cfg>::new().with_num_players(1).unwrap()
        .add_player(PlayerType::Local, 0).unwrap().add_player(PlayerType::Spectator(2), 1).unwrap()
        .start_p2p_session(Sock{me:0, net: net.clone()}).unwrap();
    let mut s = SessionBuilder::<Cfg>::new().with_num_players(1).unwrap()
        .with_disconnect_timeout(Duration::from_millis(300)).with_disconnect_notify_delay(Duration::from_millis(100))
        .start_spectator_session(0, Sock{me:2, net: net.clone()});
    for _ in 0..200 { a.poll_remote_clients(); s.poll_remote_clients(); }
    assert_eq!(s.current_state(), SessionState::Running);
    let mut ga = Game::default(); let mut gs = Game::default(); let mut log = vec![];
    let mut step = |a: &mut P2PSession<Cfg>, s: &mut SpectatorSession<Cfg>, host_alive: bool, log: &mut Vec<String>| {
        if host_alive { a.add_local_input(0, 3).unwrap(); if let Ok(r) = a.advance_frame() { ga.handle(r); } }
        if let Ok(r) = s.advance_frame() { gs.handle(r); }
        for e in s.events() { match e { GgrsEvent::NetworkInterrupted{..} => log.push("Interrupted".into()), GgrsEvent::NetworkResumed{..} => log.push("Resumed".into()), GgrsEvent::Disconnected{..} => log.push("Disconnected".into()), _ => {} } }
    };
    for _ in 0..10 { step(&mut a, &mut s, true, &mut log); }
    let t = std::time::Instant::now(); while t.elapsed() < Duration::from_millis(450) { step(&mut a, &mut s, false, &mut log); std::thread::sleep(Duration::from_millis(10)); }   // host silent > timeout
    for _ in 0..20 { step(&mut a, &mut s, true, &mut log); std::thread::sleep(Duration::from_millis(5)); }                                                               // host comes back
    println!("d14 spectator events: {:?}; spectator frame {}", log, s.current_frame());
    let pos = log.iter().position(|e| e == "Disconnected").expect("no Disconnected");
    assert!(log[pos+1..].is_empty(), "events after Disconnected: {:?}", &log[pos+1..]);
}
