// Exploratory only (design phase): randomized lossy network, 2-3 peers + optional spectator; looks for panics and divergence.
mod probe_net; use probe_net::*; use ggrs::*; use std::rc::Rc; use std::cell::RefCell; use std::collections::{HashMap, VecDeque};

struct Rng(u64); impl Rng { fn next(&mut self) -> u64 { self.0 ^= self.0 << 13; self.0 ^= self.0 >> 7; self.0 ^= self.0 << 17; self.0 } fn below(&mut self, n: u64) -> u64 { self.next() % n } }

#[derive(Default)] struct LNet { q: HashMap<usize, VecDeque<(usize, Message)>>, loss: u64, dup: u64, reorder: u64, rng: u64, on: bool }
type LNetRc = Rc<RefCell<LNet>>;
struct LSock { me: usize, net: LNetRc }
impl NonBlockingSocket<usize> for LSock {
    fn send_to(&mut self, msg: &Message, addr: &usize) {
        let mut n = self.net.borrow_mut();
        let mut r = Rng(n.rng); let a = r.below(100); let b = r.below(100); let c = r.below(100); n.rng = r.0;
        if n.on && a < n.loss { return; }
        let me = self.me; let on = n.on; let (dup, reorder) = (n.dup, n.reorder);
        let q = n.q.entry(*addr).or_default();
        if on && c < reorder && !q.is_empty() { let l = q.len(); q.insert(l - 1, (me, msg.clone())); } else { q.push_back((me, msg.clone())); }
        if on && b < dup { q.push_back((me, msg.clone())); }
    }
    fn receive_all_messages(&mut self) -> Vec<(usize, Message)> { self.net.borrow_mut().q.entry(self.me).or_default().drain(..).collect() }
}

fn run(seed: u64, npeers: usize, locals_per_peer: usize, mp: usize, delay: usize, sparse: bool, spectator: bool, frames: i32, loss: u64) -> Result<(), String> {
    let net: LNetRc = Rc::new(RefCell::new(LNet { rng: seed | 1, loss, dup: 10, reorder: 15, ..Default::default() }));
    let np = npeers * locals_per_peer;
    let mut sess = vec![];
    for me in 0..npeers {
        let mut b = SessionBuilder::<Cfg>::new().with_num_players(np).unwrap().with_max_prediction_window(mp).with_input_delay(delay).with_sparse_saving_mode(sparse)
            .with_desync_detection_mode(DesyncDetection::On { interval: 3 });
        for h in 0..np { let owner = h / locals_per_peer; b = b.add_player(if owner == me { PlayerType::Local } else { PlayerType::Remote(owner) }, h).unwrap(); }
        if spectator && me == 0 { b = b.add_player(PlayerType::Spectator(100), np).unwrap(); }
        sess.push(b.start_p2p_session(LSock { me, net: net.clone() }).unwrap());
    }
    let mut spec = if spectator { Some(SessionBuilder::<Cfg>::new().with_num_players(np).unwrap().with_max_prediction_window(mp).start_spectator_session(0, LSock { me: 100, net: net.clone() })) } else { None };
    for _ in 0..400 { for s in sess.iter_mut() { s.poll_remote_clients(); } if let Some(s) = spec.as_mut() { s.poll_remote_clients(); } }
    if !sess.iter().all(|s| s.current_state() == SessionState::Running) { return Err("no sync".into()); }
    net.borrow_mut().on = true;
    let mut games: Vec<Game> = (0..npeers).map(|_| Game::default()).collect();
    let mut sgame = Game::default();
    let mut rng = Rng(seed.wrapping_mul(77) | 1);
    let truth = |h: usize, f: i32| -> u8 { ((f as usize / (2 + h)) * 7 + h * 13) as u8 % 5 };
    let mut ticks = 0; let mut conf_at: Vec<i32> = vec![-1; npeers];
    while sess.iter().any(|s| s.current_frame() < frames) && ticks < frames * 40 {
        ticks += 1;
        let who = rng.below(npeers as u64 + 1) as usize;
        if who < npeers {
            let s = &mut sess[who];
            if s.current_frame() >= frames { s.poll_remote_clients(); continue; }
            let f = s.current_frame();
            for h in s.local_player_handles() { s.add_local_input(h, truth(h, f)).unwrap(); }
            let before = s.current_frame();
            match s.advance_frame() { Ok(r) => games[who].handle(r), Err(e) => return Err(format!("peer {who} err {e}")) }
            if s.current_frame() != games[who].frame { return Err(format!("peer {who}: session frame {} game frame {}", s.current_frame(), games[who].frame)); }
            conf_at[who] = s.confirmed_frame();
            if s.current_frame() != before && s.current_frame() != before + 1 { return Err(format!("peer {who}: frame jumped {} -> {}", before, s.current_frame())); }
            for e in s.events() { if let GgrsEvent::DesyncDetected { frame, .. } = e { return Err(format!("peer {who}: false desync at {frame}")); } if let GgrsEvent::Disconnected { .. } = e { return Err(format!("peer {who}: disconnected")); } }
        } else if let Some(s) = spec.as_mut() {
            match s.advance_frame() { Ok(r) => sgame.handle(r), Err(GgrsError::PredictionThreshold) => {}, Err(e) => return Err(format!("spectator err {e}")) }
        }
    }
    net.borrow_mut().on = false;
    for _ in 0..50 { for s in sess.iter_mut() { s.poll_remote_clients(); } }
    // compare confirmed prefixes
    for (p, g) in games.iter().enumerate() {
        let conf = conf_at[p].min(frames - 1);
        for (f, inp) in g.log.iter() { if *f > conf - 1 { continue; }
            for h in 0..np { let d = delay as i32; let want = if *f < d { 0 } else { truth(h, *f - d) };
                if inp[h].0 != want { return Err(format!("peer {p} frame {f} player {h}: got {:?} want {want} (conf {conf})", inp[h])); } } }
    }
    if spectator { for (f, inp) in sgame.log.iter() { for h in 0..np { let d = delay as i32; let want = if *f < d { 0 } else { truth(h, *f - d) }; if inp[h].0 != want { return Err(format!("spectator frame {f} player {h}: got {:?} want {want}", inp[h])); } } } }
    Ok(())
}

#[test]
fn explore() {
    let mut bad = 0; let mut n = 0;
    for seed in 1..=40u64 { for &(npeers, lpp) in &[(2usize,1usize),(2,2),(3,1)] { for &mp in &[0usize,1,2,8] { for &delay in &[0usize,2] { for &sparse in &[false,true] { for &spect in &[false,true] {
        let loss = if mp == 0 { 0 } else { 20 };   // real-time retransmit timer (200ms) makes lockstep+loss crawl; keep lockstep lossless here
        n += 1;
        let r = std::panic::catch_unwind(|| run(seed, npeers, lpp, mp, delay, sparse, spect, 120, loss));
        let msg = match r { Ok(Ok(())) => continue, Ok(Err(e)) => e, Err(p) => format!("PANIC {:?}", p.downcast_ref::<String>().cloned().or(p.downcast_ref::<&str>().map(|s| s.to_string()))) };
        bad += 1; if bad <= 40 { println!("seed={seed} peers={npeers}x{lpp} mp={mp} delay={delay} sparse={sparse} spect={spect}: {msg}"); }
    }}}}}}
    println!("explore: {bad} bad of {n}");
}
